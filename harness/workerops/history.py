"""implementation-side ops for C18: digests of everything that outlives a call, and the public
operations whose results must not depend on what the process did before"""
import hashlib
import sys
import types


def _canon(v, depth=0):
    if depth > 6:
        return "<deep>"
    if isinstance(v, dict):
        return "{" + ",".join(sorted("%s:%s" % (_canon(k, depth + 1), _canon(x, depth + 1)) for k, x in v.items())) + "}"
    if isinstance(v, (set, frozenset)):
        return type(v).__name__ + "(" + ",".join(sorted(_canon(x, depth + 1) for x in v)) + ")"
    if isinstance(v, (list, tuple)) or type(v).__name__ == "deque":
        return type(v).__name__ + "[" + ",".join(_canon(x, depth + 1) for x in v) + "]"
    if isinstance(v, (int, float, str, bytes, bool, type(None))):
        return repr(v)
    if isinstance(v, (types.FunctionType, types.BuiltinFunctionType, types.MethodType)):
        return "<fn %s>" % getattr(v, "__qualname__", getattr(v, "__name__", "?"))
    if isinstance(v, type):
        return "<class %s>" % v.__qualname__
    if isinstance(v, types.ModuleType):
        return "<module %s>" % v.__name__
    return "<%s>" % type(v).__name__


def _h(s):
    return hashlib.sha1(s.encode("utf-8", "backslashreplace")).hexdigest()[:12]


CONTAINERS = (dict, list, set, frozenset, tuple)


def register(op):
    @op
    def state_digest(a):
        """name -> digest for every module-level container / scalar of every xdis module, every
        container-valued class attribute, and every default-argument object"""
        import pkgutil
        import importlib
        import xdis
        if a.get("import_all"):
            for m in pkgutil.walk_packages(xdis.__path__, "xdis."):
                if ".bin." in m.name or m.name.endswith("__main__"):
                    continue
                try:
                    importlib.import_module(m.name)
                except Exception:  # noqa
                    pass
        out = {}
        for mname, mod in sorted(sys.modules.items()):
            if mod is None or not (mname == "xdis" or mname.startswith("xdis.")):
                continue
            for k, v in sorted(vars(mod).items()):
                if k.startswith("__") and k.endswith("__"):
                    continue
                if isinstance(v, CONTAINERS) or type(v).__name__ == "deque" or isinstance(v, (int, str, bytes, bool, float, type(None))):
                    out["%s.%s" % (mname, k)] = _h(_canon(v))
                elif isinstance(v, type) and getattr(v, "__module__", None) == mname:
                    for ck, cv in sorted(vars(v).items()):
                        if isinstance(cv, CONTAINERS) and not ck.startswith("__"):
                            out["%s.%s.%s" % (mname, k, ck)] = _h(_canon(cv))
                        f = cv.__func__ if isinstance(cv, (staticmethod, classmethod)) else cv
                        if isinstance(f, types.FunctionType):
                            d = (f.__defaults__ or ()) + tuple((f.__kwdefaults__ or {}).values())
                            if any(isinstance(x, (dict, list, set)) for x in d):
                                out["%s.%s.%s()defaults" % (mname, k, ck)] = _h(_canon(list(d)))
                elif isinstance(v, types.FunctionType) and getattr(v, "__module__", None) == mname:
                    d = (v.__defaults__ or ()) + tuple((v.__kwdefaults__ or {}).values())
                    if any(isinstance(x, (dict, list, set)) for x in d):
                        out["%s.%s()defaults" % (mname, k)] = _h(_canon(list(d)))
        return out

    @op
    def optable(a):
        """get_opcode_module(version, variant): every public attribute of the table module"""
        from xdis.op_imports import get_opcode_module
        try:
            m = get_opcode_module(tuple(a["version"]), a.get("variant"))
        except Exception as e:  # noqa
            return {"err": type(e).__name__}
        return {"name": m.__name__, "attrs": {k: _h(_canon(v)) for k, v in sorted(vars(m).items())
                                             if not k.startswith("__") and not isinstance(v, types.ModuleType)}}

    @op
    def std_api(a):
        """make_std_api(version, variant): its tables and, when a file is given, code_info / dis text of the file's code"""
        import io
        import os
        import tempfile
        from xdis.std import make_std_api
        try:
            api = make_std_api(tuple(a["version"]), a.get("variant"))
        except Exception as e:  # noqa
            return {"err": type(e).__name__ + ":" + str(e)[:80]}
        out = {"opmap": _h(_canon(api.opmap)), "opname": _h(_canon(api.opname)),
               "sets": {k: _h(_canon(getattr(api, k))) for k in ("hasconst", "hasname", "hasjrel", "hasjabs", "haslocal", "hascompare", "hasfree")
                        if hasattr(api, k)}}
        if a.get("pyc"):
            from xdis.load import load_module
            fd, path = tempfile.mkstemp(suffix=a.get("suffix", ".pyc"))
            os.write(fd, bytes.fromhex(a["pyc"]))
            os.close(fd)
            try:
                co = load_module(path)[3]
                try:
                    out["code_info"] = api.code_info(co)
                except Exception as e:  # noqa
                    out["code_info_err"] = type(e).__name__
                try:
                    buf = io.StringIO()
                    api.dis(co, file=buf)
                    out["dis"] = buf.getvalue()
                except Exception as e:  # noqa
                    out["dis_err"] = type(e).__name__
                try:
                    buf = io.StringIO()
                    api.show_code(co, file=buf)
                    out["show_code"] = buf.getvalue()
                except Exception as e:  # noqa
                    out["show_code_err"] = type(e).__name__
                try:
                    api.show_code(co)          # to stdout, which the worker captures and returns
                except Exception as e:  # noqa
                    out["show_code_stdout_err"] = type(e).__name__
                try:
                    out["pretty_flags"] = [api.pretty_flags(co.co_flags), api.pretty_flags(0x00100440)]
                except Exception as e:  # noqa
                    out["pretty_flags_err"] = type(e).__name__
            except Exception as e:  # noqa
                out["load_err"] = type(e).__name__
            finally:
                os.unlink(path)
        return out

    @op
    def marsh_rt(a):
        """xdis.marsh.dumps then xdis.marsh.loads on eval(expr)"""
        import xdis.marsh as XM
        v = eval(a["expr"])
        try:
            d = XM.dumps(v)
            back = XM.loads(d)
            return {"dumps": d.hex() if isinstance(d, (bytes, bytearray)) else repr(d), "loads": _canon(back)}
        except Exception as e:  # noqa
            return {"err": type(e).__name__ + ":" + str(e)[:80]}

    @op
    def marsh_loads(a):
        """xdis.marsh.loads on the payload of a .pyc image (header skipped)"""
        import xdis.marsh as XM
        data = bytes.fromhex(a["pyc"])[a.get("skip", 8):]
        try:
            c = XM.loads(data)
            return {"type": type(c).__name__, "name": str(getattr(c, "co_name", None)), "code": len(getattr(c, "co_code", b"")),
                    "consts": _canon([type(x).__name__ for x in getattr(c, "co_consts", ())])}
        except Exception as e:  # noqa
            return {"err": type(e).__name__ + ":" + str(e)[:80]}

/-
C12 — "faithful to the instruction stream", end to end: the rows of a classic (or bytes) listing are the
instruction records CPython's own `dis` reports for the code string — composed from the listing loop
(C12_classic_noncache / C12_bytes_all) and the record theorems C20_instructions / C20_instructions_311
(which rest on C02 and C04).
-/
import XV.Props.C12
import XV.Props.C20.Instructions
namespace XV.Props.C12.EndToEnd
open XV XV.Model XV.Model.Listing XV.Model.Decode XV.Spec.Dis XV.Props.C02 XV.Props.C12 XV.Props.C20.Instructions

/-- a record as the listing loop sees it (`has311`: opcode 0 is CACHE from 3.11 on; SET_LINENO is gone since 2.3) -/
def liOf (has311 : Bool) (r : IRec) : LI :=
  { offset := r.offset, opcode := r.opcode, arg := r.arg, argval := 0, startsLine := r.startsLine.map Int.toNat,
    jt := r.isJumpTarget, isSetLineno := false, isExtArg := false, isCache := has311 && r.opcode == 0, isReserveFast := false }

/-- C12_classic_cpython (3.11–3.13): the rows of the classic listing are exactly CPython's records, in order, each once -/
theorem C12_classic_cpython (t : OpTable) (ht : t ∈ Gen.allTables) (d : DisTbl) (hd : disTblFor t = some d)
    (h11 : verGe d.version 3 11 = true) (code : Bytes) (hbytes : IsBytes code) (hck : CacheOk t d code) (hc : CarryOk t code)
    (starts : List (Nat × Int)) (excTargets : List Int) (sl : Bool) (recs : List IRec)
    (hx : xdisInstructions t code starts excTargets = some recs) :
    ∃ cp, disInstructions d code starts excTargets = some cp ∧
      rows (listing .classic sl (recs.map (liOf true))) = (cp.map (liOf true)).map toRow := by
  have h := C20_instructions_311 t ht d hd h11 code hbytes hck hc starts excTargets
  rw [hx] at h
  refine ⟨_, h.symm, ?_⟩
  rw [C12_classic_noncache sl _ (by intro i hi; simp only [List.mem_map] at hi; obtain ⟨r, _, rfl⟩ := hi; rfl)]
  congr 1
  rw [List.filter_map]
  congr 1

/-- C12_rows_cpython (every version from 2.3 to 3.10): classic and bytes listings show exactly CPython's records -/
theorem C12_rows_cpython (t : OpTable) (ht : t ∈ Gen.allTables) (d : DisTbl) (hd : disTblFor t = some d)
    (h11 : verGe d.version 3 11 = false) (code : Bytes) (hbytes : IsBytes code) (hc : CarryOk t code)
    (starts : List (Nat × Int)) (excTargets : List Int) (sl : Bool) (recs : List IRec)
    (hx : xdisInstructions t code starts excTargets = some recs) (fmt : Fmt) (hf : fmt = .classic ∨ fmt = .bytes) :
    disInstructions d code starts excTargets = some recs ∧
      rows (listing fmt sl (recs.map (liOf false))) = (recs.map (liOf false)).map toRow := by
  have h := C20_instructions t ht d hd h11 code hbytes hc starts excTargets
  rw [hx] at h
  refine ⟨h.symm, ?_⟩
  have hs : ∀ i ∈ recs.map (liOf false), i.isSetLineno = false := by
    intro i hi; simp only [List.mem_map] at hi; obtain ⟨r, _, rfl⟩ := hi; rfl
  rcases hf with rfl | rfl
  · rw [C12_classic_noncache sl _ hs]
    congr 1
    apply List.filter_eq_self.mpr
    intro i hi; simp only [List.mem_map] at hi; obtain ⟨r, _, rfl⟩ := hi; simp [liOf]
  · exact C12_bytes_all sl _ hs

end XV.Props.C12.EndToEnd

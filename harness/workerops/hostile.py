"""implementation-side: load_module on arbitrary bytes under an audit hook and a stopwatch"""
import io
import os
import sys
import tempfile
import time

_events = []
_armed = [False]
WATCH = ("exec", "compile", "import", "os.system", "os.remove", "os.rename", "os.mkdir", "os.rmdir", "subprocess.Popen",
         "os.exec", "os.posix_spawn", "shutil", "ctypes")


def _hook(event, args):
    if not _armed[0]:
        return
    if event == "open":
        mode = args[1] if len(args) > 1 else None
        if mode is not None and any(c in str(mode) for c in "wax+"):
            _events.append("open-for-write:%s" % (args[0],))
        return
    for w in WATCH:
        if event == w or event.startswith(w + "."):
            if event == "import":
                # importing the standard library lazily (traceback, linecache ...) is not "importing from the file"
                name = args[0]
                if name.split(".")[0] in ("traceback", "linecache", "tokenize", "token", "re", "collections", "codecs",
                                          "encodings", "xdis", "struct", "io", "os", "sys", "types", "marshal", "contextlib",
                                          "importlib", "_io", "keyword", "textwrap", "ast", "itertools", "functools", "enum",
                                          "sre_compile", "sre_parse", "sre_constants", "_sre", "copyreg", "warnings", "zlib",
                                          "operator", "reprlib", "heapq", "_colorize", "dataclasses", "inspect", "dis", "opcode",
                                          "_opcode", "weakref", "abc", "typing", "copy", "datetime", "_datetime", "time", "math",
                                          "unicodedata", "platform", "subprocess", "signal", "threading", "selectors", "errno",
                                          "posixpath", "genericpath", "stat", "fnmatch", "glob", "shutil", "tempfile", "random",
                                          "bisect", "hashlib", "binascii", "base64", "string", "numbers", "decimal", "fractions",
                                          "_opcode_metadata", "_strptime", "calendar", "locale", "atexit", "zipimport", "pkgutil",
                                          "_thread", "_weakrefset", "_collections_abc", "builtins", "difflib", "_pyrepl", "pathlib",
                                          "urllib", "ntpath", "_suggestions", "rlcompleter", "readline", "site", "gc"):
                    return
            if event == "compile" and len(args) > 1 and args[1] == "<unknown>":
                return      # traceback.print_exc() parses xdis's own source lines (ast.parse) for the caret display
            _events.append("%s:%s" % (event, str(args)[:80]))
            return


sys.addaudithook(_hook)


def register(op):
    @op
    def load_hostile(a):
        """write the bytes to a temp .pyc, call load_module, classify the outcome"""
        from xdis.load import load_module
        data = bytes.fromhex(a["hex"]) if a["hex"] != "-" else b""
        fd, path = tempfile.mkstemp(suffix=".pyc")
        os.write(fd, data)
        os.close(fd)
        del _events[:]
        import resource
        try:
            # huge allocations fail with MemoryError instead of taking the machine down
            soft, hard = resource.getrlimit(resource.RLIMIT_AS)
            cap = 6 << 30
            if soft == resource.RLIM_INFINITY or soft > cap:
                resource.setrlimit(resource.RLIMIT_AS, (cap, hard))
        except (ValueError, OSError):
            pass
        rss0 = resource.getrusage(resource.RUSAGE_SELF).ru_maxrss
        t0 = time.time()
        _armed[0] = True
        try:
            try:
                if a.get("portable"):
                    import xdis.load as L
                    saved = L.PYTHON_MAGIC_INT
                    L.PYTHON_MAGIC_INT = -1
                    try:
                        r = load_module(path)
                    finally:
                        L.PYTHON_MAGIC_INT = saved
                else:
                    r = load_module(path)
                out = "returned" if isinstance(r, tuple) and len(r) == 7 else "returned-other:%s" % type(r).__name__
            except ImportError:
                out = "ImportError"
            except BaseException as e:  # noqa
                out = "escaped:" + type(e).__name__
        finally:
            _armed[0] = False
            try:
                os.unlink(path)
            except OSError:
                pass
        rss1 = resource.getrusage(resource.RUSAGE_SELF).ru_maxrss
        return {"outcome": out, "wall": round(time.time() - t0, 3), "events": list(_events)[:5],
                "rss_growth_mb": round((rss1 - rss0) / 1024.0, 1)}

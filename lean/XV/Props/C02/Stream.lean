/-
C02, unbounded part — the instruction stream of a code string of ANY length.

`Model.Decode.instrs` is xdis's nested loop (get_instructions_bytes calling
get_logical_instruction_at_offset, which folds EXTENDED_ARG prefixes into a group);
`Spec.Dis.unpack` is CPython's flat `_unpack_opargs` loop.  They are related through a
flat, fuel-free view `flat` of the Model:

  stream_flat   Model.instrs (as triples) = flat            (nested loop = flat loop)
  flat_spec     flat = Spec.Dis.unpack                      (table facts + carry condition)
  C02_stream    Model.instrs (as triples) = Spec.Dis.unpack

for every table whose per-opcode facts hold for all 256 opcode numbers (discharged by
`decide +kernel` over the regenerated tables in `C02_stream_tables`), for code strings
of every length.  Era: up to 3.10 (no inline caches).  The one hypothesis on the code,
`CarryOk`, excludes exactly the byte sequences where CPython ≤ 3.9 carries a pending
EXTENDED_ARG across an operand-less opcode and xdis drops it (no compiler emits
EXTENDED_ARG before an operand-less opcode); from 3.10 CPython drops it too and the
hypothesis is not needed (`carryOk_of_310`).
-/
import XV.Model.Decode
import XV.Spec.Dis
namespace XV.Props.C02
open XV XV.Model XV.Model.Decode

abbrev Triple := Spec.Dis.Triple

def tri (i : Instr) : Triple := (i.offset, i.opcode, i.arg)

/-! ### a flat view of the Model, with fuel -/

/-- one instruction per step; after a non-EXTENDED_ARG instruction the pending operand
    prefix is 0 (xdis starts a new group) -/
def flatM (t : OpTable) (code : Bytes) : Nat → Nat → Nat → Option (List Triple)
  | 0, _, _ => some []
  | fuel + 1, i, ext =>
    if i < code.length then do
      let op ← code[i]?
      if t.hasArg op then
        if py36 t then do
          let b ← code[i + 1]?
          let arg := b ||| ext
          let rest ← flatM t code fuel (i + 2) (if isExtName t op then arg <<< 8 else 0)
          pure ((i, op, some arg) :: rest)
        else do
          let b1 ← code[i + 1]?
          let b2 ← code[i + 2]?
          let arg := b1 + b2 * 0x100 + ext
          let rest ← flatM t code fuel (i + 3) (if isExtName t op then arg * 0x10000 else 0)
          pure ((i, op, some arg) :: rest)
      else do
        let rest ← flatM t code fuel (if py36 t then i + 2 else i + 1) 0
        pure ((i, op, none) :: rest)
    else some []

/-- enough fuel: one unit per remaining byte, plus one -/
def Enough (code : Bytes) (fuel i : Nat) : Prop := code.length + 1 ≤ fuel + i

theorem flatM_fuel (t : OpTable) (code : Bytes) : ∀ f1 f2 i ext, Enough code f1 i → Enough code f2 i →
    flatM t code f1 i ext = flatM t code f2 i ext := by
  intro f1
  induction f1 with
  | zero =>
    intro f2 i ext h1 _
    have hi : ¬ i < code.length := by unfold Enough at h1; omega
    cases f2 with
    | zero => rfl
    | succ f2 => simp [flatM, hi]
  | succ f1 ih =>
    intro f2 i ext h1 h2
    cases f2 with
    | zero =>
      have hi : ¬ i < code.length := by unfold Enough at h2; omega
      simp [flatM, hi]
    | succ f2 =>
      unfold Enough at h1 h2
      by_cases hi : i < code.length
      · simp only [flatM, hi, if_true]
        have e2 : ∀ e, flatM t code f1 (i + 2) e = flatM t code f2 (i + 2) e :=
          fun e => ih f2 (i + 2) e (by unfold Enough; omega) (by unfold Enough; omega)
        have e3 : ∀ e, flatM t code f1 (i + 3) e = flatM t code f2 (i + 3) e :=
          fun e => ih f2 (i + 3) e (by unfold Enough; omega) (by unfold Enough; omega)
        have e1 : ∀ e, flatM t code f1 (i + 1) e = flatM t code f2 (i + 1) e :=
          fun e => ih f2 (i + 1) e (by unfold Enough; omega) (by unfold Enough; omega)
        cases code[i]? with
        | none => rfl
        | some op =>
          simp only [Option.bind_eq_bind, Option.bind_some]
          by_cases ha : t.hasArg op = true <;> by_cases h6 : py36 t = true <;> simp [ha, h6, e1, e2, e3]
      · simp [flatM, hi]

/-- the fuel-free flat stream from offset `i` with pending prefix `ext` -/
def flat (t : OpTable) (code : Bytes) (i ext : Nat) : Option (List Triple) :=
  flatM t code (code.length + 1) i ext

theorem flat_eq (t : OpTable) (code : Bytes) (f i ext : Nat) (h : Enough code f i) :
    flatM t code f i ext = flat t code i ext :=
  flatM_fuel t code f (code.length + 1) i ext h (by unfold Enough; omega)

theorem flat_end (t : OpTable) (code : Bytes) (i ext : Nat) (h : ¬ i < code.length) :
    flat t code i ext = some [] := by
  simp [flat, flatM, h]

/-- unfolding equation of `flat` -/
theorem flat_unfold (t : OpTable) (code : Bytes) (i ext : Nat) (h : i < code.length) :
    flat t code i ext = (do
      let op ← code[i]?
      if t.hasArg op then
        if py36 t then do
          let b ← code[i + 1]?
          let arg := b ||| ext
          let rest ← flat t code (i + 2) (if isExtName t op then arg <<< 8 else 0)
          pure ((i, op, some arg) :: rest)
        else do
          let b1 ← code[i + 1]?
          let b2 ← code[i + 2]?
          let arg := b1 + b2 * 0x100 + ext
          let rest ← flat t code (i + 3) (if isExtName t op then arg * 0x10000 else 0)
          pure ((i, op, some arg) :: rest)
      else do
        let rest ← flat t code (if py36 t then i + 2 else i + 1) 0
        pure ((i, op, none) :: rest)) := by
  have e1 : ∀ e, flatM t code code.length (i + 1) e = flat t code (i + 1) e :=
    fun e => flat_eq t code _ _ _ (by unfold Enough; omega)
  have e2 : ∀ e, flatM t code code.length (i + 2) e = flat t code (i + 2) e :=
    fun e => flat_eq t code _ _ _ (by unfold Enough; omega)
  have e3 : ∀ e, flatM t code code.length (i + 3) e = flat t code (i + 3) e :=
    fun e => flat_eq t code _ _ _ (by unfold Enough; omega)
  conv => lhs; unfold flat; unfold flatM
  simp only [h, if_true]
  cases code[i]? with
  | none => rfl
  | some op =>
    simp only [Option.bind_eq_bind, Option.bind_some]
    by_cases h6 : py36 t = true <;> simp [h6, e1, e2, e3]

/-! ### the nested loop of the Model against the flat view -/

/-- the two table facts the nested loop relies on -/
structure TableOk (t : OpTable) : Prop where
  extHasArg : ∀ op, op < 256 → isExtName t op = true → t.hasArg op = true
  size : ∀ op, op < 256 → t.instrSizeOf op = if py36 t then 2 else if t.hasArg op then 3 else 1

/-- the code string is a string of bytes -/
def IsBytes (code : Bytes) : Prop := ∀ b ∈ code, b < 256

/-- what one call of get_logical_instruction_at_offset contributes to the flat stream -/
def GroupRel (t : OpTable) (code : Bytes) (i ext : Nat) : Except DErr (List Instr) → Prop
  | .error _ => flat t code i ext = none
  | .ok g => ∃ last, g.getLast? = some last ∧ i ≤ last.offset ∧
      flat t code i ext =
        (flat t code (last.offset + t.instrSizeOf last.opcode) 0).map (fun r => g.map tri ++ r)

theorem idx_eq (code : Bytes) (i : Nat) : idx code i = match code[i]? with
    | some b => .ok b
    | none => .error .indexError := rfl

theorem logicalGo_end (t : OpTable) (code : Bytes) (es f i cnt ext : Nat) (h : ¬ i < code.length) :
    logicalGo t code es f i cnt ext = .ok [] := by
  cases f with
  | zero => rfl
  | succ f => simp [logicalGo, h]

theorem groupRel_cons (t : OpTable) (code : Bytes) (i i' ext ext' : Nat) (ins : Instr)
    (r : Except DErr (List Instr)) (hoff : ins.offset = i) (hii : i ≤ i')
    (hflat : flat t code i ext = (flat t code i' ext').map (fun rest => tri ins :: rest))
    (hr : GroupRel t code i' ext' r) :
    GroupRel t code i ext (r >>= fun rest => pure (ins :: rest)) := by
  cases r with
  | error e =>
    simp only [GroupRel] at hr
    simp [GroupRel, hflat, hr, bind, Except.bind]
  | ok g =>
    obtain ⟨last, hl, hle, hf⟩ := hr
    have hne : g ≠ [] := by intro h; subst h; simp at hl
    refine ⟨last, ?_, by omega, ?_⟩
    · show (ins :: g).getLast? = some last
      rw [List.getLast?_cons_of_ne_nil hne]; exact hl
    · rw [hflat, hf, Option.map_map]
      rfl

theorem groupRel_single (t : OpTable) (code : Bytes) (i i' ext : Nat) (ins : Instr)
    (hoff : ins.offset = i) (hnext : ins.offset + t.instrSizeOf ins.opcode = i')
    (hflat : flat t code i ext = (flat t code i' 0).map (fun rest => tri ins :: rest)) :
    GroupRel t code i ext (.ok [ins]) := by
  refine ⟨ins, rfl, by omega, ?_⟩
  rw [hnext, hflat]
  rfl

theorem ok_bind {ε α β : Type} (a : α) (f : α → Except ε β) : (Except.ok a >>= f) = f a := rfl

/-- one EXTENDED_ARG iteration of the group loop, given the relation for the rest of the group -/
theorem group_cont (t : OpTable) (code : Bytes) (es f : Nat)
    (ih : ∀ (i cnt ext : Nat), Enough code f i → i < code.length →
      GroupRel t code i ext (logicalGo t code es f i cnt ext))
    (i cnt ext i' ext' : Nat) (ins : Instr)
    (hoff : ins.offset = i) (hlt : i < i') (hEn : Enough code f i')
    (hsize : ins.offset + t.instrSizeOf ins.opcode = i')
    (hflat : flat t code i ext = (flat t code i' ext').map (fun rest => tri ins :: rest)) :
    GroupRel t code i ext (logicalGo t code es f i' (cnt + 1) ext' >>= fun rest => pure (ins :: rest)) := by
  by_cases hl : i' < code.length
  · exact groupRel_cons t code i i' ext ext' ins _ hoff (by omega) hflat (ih i' (cnt + 1) ext' hEn hl)
  · rw [logicalGo_end t code es f i' (cnt + 1) ext' hl]
    refine groupRel_single t code i i' ext ins hoff hsize ?_
    rw [hflat, flat_end t code i' ext' hl, flat_end t code i' 0 hl]

theorem group_rel (t : OpTable) (code : Bytes) (ok : TableOk t) (hbytes : IsBytes code) (es : Nat) :
    ∀ f i cnt ext, Enough code f i → i < code.length →
      GroupRel t code i ext (logicalGo t code es f i cnt ext) := by
  intro f
  induction f with
  | zero => intro i cnt ext h hi; unfold Enough at h; omega
  | succ f ih =>
    intro i cnt ext h hi
    unfold Enough at h
    have hop : ∃ op, code[i]? = some op := ⟨code[i], by simp [hi]⟩
    obtain ⟨op, hop⟩ := hop
    have hfu := flat_unfold t code i ext hi
    have hop256 : op < 256 := hbytes op (List.mem_of_getElem? hop)
    have hsz := ok.size op hop256
    rw [logicalGo]
    simp only [hi, if_true, idx_eq, hop]
    by_cases ha : t.hasArg op = true
    · by_cases h6 : py36 t = true
      · cases hb : code[i + 1]? with
        | none =>
          simp [ha, h6, hb, hop] at hfu
          simp [ha, h6, GroupRel, hfu, bind, Except.bind]
        | some b =>
          by_cases hx : isExtName t op = true
          · simp [ha, h6, hb, hop, hx] at hfu
            simp only [ok_bind, pure_bind, ha, h6, hx, if_true]
            refine group_cont t code es f ih i cnt ext (i + 2) ((b ||| ext) <<< 8)
              { offset := i, opcode := op, arg := some (b ||| ext), instSize := t.instrSizeOf op + cnt * es, hasExtArg := cnt != 0 }
              rfl (by omega) (by unfold Enough; omega) (by simp [hsz, h6]) ?_
            rw [hfu, Option.map_eq_bind]; rfl
          · simp [ha, h6, hb, hop, hx] at hfu
            simp only [ok_bind, pure_bind, ha, h6, hx, if_true]
            refine groupRel_single t code i (i + 2) ext
              { offset := i, opcode := op, arg := some (b ||| ext), instSize := t.instrSizeOf op + cnt * es, hasExtArg := cnt != 0 }
              rfl (by simp [hsz, h6]) ?_
            rw [hfu, Option.map_eq_bind]; rfl
      · cases hb1 : code[i + 1]? with
        | none =>
          simp [ha, h6, hb1, hop] at hfu
          simp [ha, h6, GroupRel, hfu, bind, Except.bind]
        | some b1 =>
          cases hb2 : code[i + 2]? with
          | none =>
            simp [ha, h6, hb1, hb2, hop] at hfu
            simp [ha, h6, GroupRel, hfu, bind, Except.bind]
          | some b2 =>
            by_cases hx : isExtName t op = true
            · simp [ha, h6, hb1, hb2, hop, hx] at hfu
              simp only [ok_bind, pure_bind, ha, h6, hx, if_true, Bool.false_eq_true, if_false]
              refine group_cont t code es f ih i cnt ext (i + 3) ((b1 + b2 * 0x100 + ext) * 0x10000)
                { offset := i, opcode := op, arg := some (b1 + b2 * 0x100 + ext), instSize := t.instrSizeOf op + cnt * es, hasExtArg := cnt != 0 }
                rfl (by omega) (by unfold Enough; omega) (by simp [hsz, h6, ha]) ?_
              rw [hfu, Option.map_eq_bind]; rfl
            · simp [ha, h6, hb1, hb2, hop, hx] at hfu
              simp only [ok_bind, pure_bind, ha, h6, hx, if_true, Bool.false_eq_true, if_false]
              refine groupRel_single t code i (i + 3) ext
                { offset := i, opcode := op, arg := some (b1 + b2 * 0x100 + ext), instSize := t.instrSizeOf op + cnt * es, hasExtArg := cnt != 0 }
                rfl (by simp [hsz, h6, ha]) ?_
              rw [hfu, Option.map_eq_bind]; rfl
    · have hx : ¬ isExtName t op = true := fun hx => ha (ok.extHasArg op hop256 hx)
      simp [ha, hop] at hfu
      simp only [ok_bind, pure_bind, ha, hx, if_true, Bool.false_eq_true, if_false]
      refine groupRel_single t code i (if py36 t then i + 2 else i + 1) ext
        { offset := i, opcode := op, arg := none, instSize := t.instrSizeOf op + cnt * es, hasExtArg := cnt != 0 }
        rfl (by by_cases h6 : py36 t = true <;> simp [hsz, h6, ha]) ?_
      rw [hfu, Option.map_eq_bind]; rfl

theorem size_pos (t : OpTable) (op : Nat) : 1 ≤ t.instrSizeOf op := by
  unfold OpTable.instrSizeOf; repeat' split
  all_goals omega

/-- stream_flat: the nested loop of get_instructions_bytes yields the flat stream -/
theorem stream_flat (t : OpTable) (code : Bytes) (ok : TableOk t) (hbytes : IsBytes code) :
    ∀ f i, Enough code f i →
      (instrsGo t code f i).toOption.map (List.map tri) = flat t code i 0 := by
  intro f
  induction f with
  | zero =>
    intro i h
    have hi : ¬ i < code.length := by unfold Enough at h; omega
    rw [flat_end t code i 0 hi]; rfl
  | succ f ih =>
    intro i h
    unfold Enough at h
    by_cases hi : i < code.length
    · have hg := group_rel t code ok hbytes (extSize t) (code.length + 1) i 0 0 (by unfold Enough; omega) hi
      rw [instrsGo]
      simp only [hi, if_true, logicalAt]
      cases hr : logicalGo t code (extSize t) (code.length + 1) i 0 0 with
      | error e =>
        rw [hr] at hg
        simp only [GroupRel] at hg
        rw [hg]; rfl
      | ok g =>
        rw [hr] at hg
        obtain ⟨last, hl, hle, hf⟩ := hg
        simp only [ok_bind, hl]
        have hs := size_pos t last.opcode
        have := ih (last.offset + t.instrSizeOf last.opcode) (by unfold Enough; omega)
        rw [hf, ← this]
        cases instrsGo t code f (last.offset + t.instrSizeOf last.opcode) with
        | error e => rfl
        | ok rest => simp [Except.toOption, bind, Except.bind, pure, Except.pure]
    · rw [flat_end t code i 0 hi]
      simp [instrsGo, hi, Except.toOption]

/-! ### the flat view against CPython's `_unpack_opargs` -/

/-- xdis's table and CPython's opcode data agree on what the decoder reads -/
structure DisOk (t : OpTable) (d : Spec.Dis.DisTbl) : Prop where
  takes : ∀ op, op < 256 → t.hasArg op = decide (op ≥ d.haveArgument)
  ext : ∀ op, op < 256 → isExtName t op = (d.extendedArg == some op)
  era : py36 t = verGe d.version 3 6
  lt311 : verGe d.version 3 11 = false
  lt312 : verGe d.version 3 12 = false

/-- the pending EXTENDED_ARG prefix is 0 whenever an operand-less opcode is reached
    (CPython before 3.10 would carry it over that opcode, xdis drops it) -/
def carryOk (t : OpTable) (code : Bytes) : Nat → Nat → Nat → Bool
  | 0, _, _ => true
  | fuel + 1, i, ext =>
    if i < code.length then
      match code[i]? with
      | none => true
      | some op =>
        if t.hasArg op then
          if py36 t then
            match code[i + 1]? with
            | none => true
            | some b => carryOk t code fuel (i + 2) (if isExtName t op then (b ||| ext) <<< 8 else 0)
          else
            match code[i + 1]?, code[i + 2]? with
            | some b1, some b2 =>
              carryOk t code fuel (i + 3) (if isExtName t op then (b1 + b2 * 0x100 + ext) * 0x10000 else 0)
            | _, _ => true
        else ext == 0 && carryOk t code fuel (if py36 t then i + 2 else i + 1) 0
    else true

def CarryOk (t : OpTable) (code : Bytes) : Prop := carryOk t code (code.length + 1) 0 0 = true

theorem flat_spec_word (t : OpTable) (d : Spec.Dis.DisTbl) (code : Bytes) (dk : DisOk t d)
    (hbytes : IsBytes code) (h6 : py36 t = true) :
    ∀ f i ext, (verGe d.version 3 10 = true ∨ carryOk t code f i ext = true) →
      Spec.Dis.unpackWordGo d code f i ext 0 = flatM t code f i ext := by
  intro f
  induction f with
  | zero => intros; rfl
  | succ f ih =>
    intro i ext hc
    rw [Spec.Dis.unpackWordGo, flatM]
    by_cases hi : i < code.length
    · simp only [hi, if_true, Nat.lt_irrefl, if_false, dk.lt311, dk.lt312, Bool.false_eq_true, Bool.false_and]
      have hop : ∃ op, code[i]? = some op := ⟨code[i], by simp [hi]⟩
      obtain ⟨op, hop⟩ := hop
      have hop256 : op < 256 := hbytes op (List.mem_of_getElem? hop)
      simp only [hop, Option.bind_eq_bind, Option.bind_some, h6, if_true, dk.takes op hop256, dk.ext op hop256,
        decide_eq_true_eq]
      by_cases ha : op ≥ d.haveArgument
      · simp only [ha, if_true]
        cases hb : code[i + 1]? with
        | none => rfl
        | some b =>
          simp only [Option.bind_some]
          rw [ih]
          rcases hc with hc | hc
          · exact Or.inl hc
          · right
            rw [carryOk] at hc
            simp only [hi, if_true, hop, dk.takes op hop256, ha, decide_true, h6, hb, dk.ext op hop256] at hc
            exact hc
      · simp only [ha, if_false]
        rcases hc with hc | hc
        · simp only [hc, if_true]
          rw [ih _ _ (Or.inl hc)]
        · rw [carryOk] at hc
          simp only [hi, if_true, hop, dk.takes op hop256, ha, decide_false, Bool.false_eq_true, if_false, h6,
            Bool.and_eq_true, beq_iff_eq] at hc
          obtain ⟨he, hc⟩ := hc
          subst he
          have : (if verGe d.version 3 10 = true then 0 else 0) = 0 := by split <;> rfl
          rw [this, ih _ _ (Or.inr hc)]
    · simp [hi]

theorem flat_spec_27 (t : OpTable) (d : Spec.Dis.DisTbl) (code : Bytes) (dk : DisOk t d)
    (hbytes : IsBytes code) (h6 : py36 t = false) :
    ∀ f i ext, carryOk t code f i ext = true →
      Spec.Dis.unpack27Go d code f i ext = flatM t code f i ext := by
  intro f
  induction f with
  | zero => intros; rfl
  | succ f ih =>
    intro i ext hc
    rw [Spec.Dis.unpack27Go, flatM]
    by_cases hi : i < code.length
    · simp only [hi, if_true]
      have hop : ∃ op, code[i]? = some op := ⟨code[i], by simp [hi]⟩
      obtain ⟨op, hop⟩ := hop
      have hop256 : op < 256 := hbytes op (List.mem_of_getElem? hop)
      rw [carryOk] at hc
      simp only [hi, if_true, hop, dk.takes op hop256, h6, Bool.false_eq_true, if_false, dk.ext op hop256] at hc
      simp only [hop, Option.bind_eq_bind, Option.bind_some, h6, Bool.false_eq_true, if_false, dk.takes op hop256,
        dk.ext op hop256, decide_eq_true_eq]
      by_cases ha : op ≥ d.haveArgument
      · simp only [ha, if_true, decide_true] at hc ⊢
        cases hb1 : code[i + 1]? with
        | none => rfl
        | some b1 =>
          cases hb2 : code[i + 2]? with
          | none => rfl
          | some b2 =>
            simp only [Option.bind_some]
            simp only [hb1, hb2] at hc
            rw [ih _ _ hc]
      · simp only [ha, if_false, decide_false, Bool.false_eq_true, Bool.and_eq_true, beq_iff_eq] at hc ⊢
        obtain ⟨he, hc⟩ := hc
        subst he
        rw [ih _ _ hc]
    · simp [hi]

/-! ### the stream theorem -/

/-- C02_stream: for a table whose per-opcode facts hold (`TableOk`, `DisOk`: discharged for
    the real tables below), for EVERY byte string `code`, of any length, xdis's nested
    decoder and CPython's `_unpack_opargs` produce the same (offset, opcode, operand)
    stream, or both fail on a truncated operand — provided no EXTENDED_ARG prefix is
    pending when an operand-less opcode is reached (`CarryOk`; not needed from 3.10) -/
theorem C02_stream (t : OpTable) (d : Spec.Dis.DisTbl) (code : Bytes) (ok : TableOk t) (dk : DisOk t d)
    (hbytes : IsBytes code)
    (hc : (verGe d.version 3 10 = true ∧ py36 t = true) ∨ CarryOk t code) :
    (instrs t code).toOption.map (List.map tri) = Spec.Dis.unpack d code := by
  unfold instrs
  rw [stream_flat t code ok hbytes (code.length + 1) 0 (by unfold Enough; omega)]
  unfold Spec.Dis.unpack flat
  by_cases h6 : py36 t = true
  · rw [← dk.era, h6]
    simp only [if_true]
    symm
    apply flat_spec_word t d code dk hbytes h6
    rcases hc with hc | hc
    · exact Or.inl hc.1
    · exact Or.inr hc
  · have h6' : py36 t = false := by simpa using h6
    rw [← dk.era, h6']
    simp only [Bool.false_eq_true, if_false]
    symm
    apply flat_spec_27 t d code dk hbytes h6'
    rcases hc with hc | hc
    · exact absurd hc.2 h6
    · exact hc

end XV.Props.C02

/-
C09 — what the property demands of an opcode table, as computable predicates
over the generated tables (`Gen.allTables`, from /repo) and the generated
reference tables (`Gen.allRefs`, from the installed CPythons' `opcode` modules).
-/
import XV.Gen.OpTables
import XV.Gen.RefOpTables
import XV.Gen.Snapshot
namespace XV.Spec.OpTables
open XV XV.Model

/-- Bool-valued structural equality on strings / lists of Nat (kernel-cheap) -/
def natsEq : List Nat → List Nat → Bool
  | [], [] => true
  | a :: as, b :: bs => Nat.beq a b && natsEq as bs
  | _, _ => false

/-- xdis writes `SLICE_1` where CPython's table says `SLICE+1` (fix_opcode_names) -/
def normName (s : Str) : Str := s.map fun c => if c == 43 then 95 else c

/-- "<12>" : the name xdis gives an undefined opcode number -/
def undefName (op : Nat) : Str := 60 :: natToDec op ++ [62]

def isDefined (t : OpTable) (op : Nat) : Bool :=
  let n := t.opnameOf op
  !(n.isEmpty) && !(natsEq n (undefName op))

def mem (x : Nat) : List Nat → Bool
  | [] => false
  | y :: ys => Nat.beq x y || mem x ys

def lookupName (m : List (Str × Nat)) (n : Str) : Option Nat :=
  match m with
  | [] => none
  | (k, v) :: rest => if natsEq k n then some v else lookupName rest n

/-- the reference table for a (non-PyPy) xdis table, when an interpreter of that
    version is installed -/
def refFor (t : OpTable) : Option RefTable :=
  if t.isPypy then none else Gen.allRefs.find? (fun r => r.version.1 == t.version.1 && r.version.2 == t.version.2)

def pairsEq : List (Str × Nat) → List (Str × Nat) → Bool
  | [], [] => true
  | (a, x) :: as, (b, y) :: bs => natsEq a b && Nat.beq x y && pairsEq as bs
  | _, _ => false

def sortedInsert (x : Nat) : List Nat → List Nat
  | [] => [x]
  | y :: ys => if x ≤ y then x :: y :: ys else y :: sortedInsert x ys
def sortNats (l : List Nat) : List Nat := l.foldr sortedInsert []

/-- opmap (names normalised; 3.12+ tables include the pseudo-opcodes ≥ 256, as CPython's do), HAVE_ARGUMENT, EXTENDED_ARG and the
    seven operand categories equal the interpreter's own -/
def refChecks (t : OpTable) (r : RefTable) : List (String × Bool) :=
  [ ("opmap", pairsEq t.opmap (r.opmap.map fun p => (normName p.1, p.2))),
    ("HAVE_ARGUMENT", t.haveArgument == r.haveArgument),
    ("EXTENDED_ARG", t.extendedArg == some r.extendedArg),
    ("hasjrel", natsEq t.jrelOps (sortNats r.hasjrel)),
    ("hasjabs", natsEq t.jabsOps (sortNats r.hasjabs)),
    ("hasconst", natsEq t.constOps (sortNats r.hasconst)),
    ("hasname", natsEq t.nameOps (sortNats r.hasname)),
    ("haslocal", natsEq t.localOps (sortNats r.haslocal)),
    ("hasfree", natsEq t.freeOps (sortNats r.hasfree)),
    ("hascompare", natsEq t.compareOps (sortNats r.hascompare)) ]

def refOk (t : OpTable) : Bool :=
  match refFor t with
  | none => true
  | some r => (refChecks t r).all (·.2)

def definedName (n : Str) (op : Nat) : Bool := !(n.isEmpty) && !(natsEq n (undefName op))

/-- one linear walk over the name array and the (number-sorted) opmap together:
    slot `idx` is defined exactly when it is the next opmap entry, and then it carries
    that entry's name; every opmap entry is consumed. -/
def bijWalk : Nat → List Str → List (Str × Nat) → Bool
  | _, [], om => om.isEmpty
  | idx, n :: rest, [] => !(definedName n idx) && bijWalk (idx + 1) rest []
  | idx, n :: rest, (k, v) :: om =>
    if Nat.beq v idx then definedName n idx && natsEq (normName n) k && bijWalk (idx + 1) rest om
    else !(definedName n idx) && bijWalk (idx + 1) rest ((k, v) :: om)

/-- names ↔ numbers of defined opcodes form a bijection: `bijWalk` forces
    {defined slots} = {numbers in opmap} with equal names at each; `opmap` comes from a
    Python dict, so its names are pairwise distinct by construction (T1). -/
def bijChecks (t : OpTable) : List (String × Bool) :=
  [ ("opname-length", t.opname.length ≥ 256),
    ("opname<->opmap", bijWalk 0 t.opname t.opmap) ]

def bijOk (t : OpTable) : Bool := (bijChecks t).all (·.2)

def refCat (r : RefTable) : String → List Nat
  | "jrel" => r.hasjrel | "jabs" => r.hasjabs | "const" => r.hasconst | "name" => r.hasname
  | "local" => r.haslocal | "free" => r.hasfree | "compare" => r.hascompare | _ => []

def cats (t : OpTable) : List (String × List Nat) :=
  [("jrel", t.jrelOps), ("jabs", t.jabsOps), ("const", t.constOps), ("name", t.nameOps),
   ("local", t.localOps), ("free", t.freeOps), ("compare", t.compareOps)]

/-- CPython's own table has the same gap (same opcode in the same category while
    undefined or below HAVE_ARGUMENT there) -/
def refHasGap (t : OpTable) (cat : String) (op : Nat) : Bool :=
  match refFor t with
  | none => false
  | some r => mem op (refCat r cat) &&
      (!(r.opmap.any (·.2 == op)) || op < r.haveArgument)

/-- categorised ⇒ defined and operand-taking (or CPython shares the gap) -/
def catOpOk (t : OpTable) (cat : String) (op : Nat) : Bool :=
  (isDefined t op && op ≥ t.haveArgument) || refHasGap t cat op

def catBad (t : OpTable) : List (String × Nat) :=
  (cats t).flatMap fun (c, ops) => (ops.filter (fun op => !(catOpOk t c op))).map fun op => (c, op)

def catOk (t : OpTable) : Bool := (cats t).all fun (c, ops) => ops.all (catOpOk t c)

def disjointOk (t : OpTable) : Bool := t.jrelOps.all fun op => !(mem op t.jabsOps)

def extArgName : Str := [69, 88, 84, 69, 78, 68, 69, 68, 95, 65, 82, 71]
example : extArgName = str "EXTENDED_ARG" := by decide

/-- EXTENDED_ARG is the opcode so named, and its shift is 16 before 3.6, 8 from 3.6 -/
def extArgOk (t : OpTable) : Bool :=
  match lookupName t.opmap extArgName with
  | none => t.extendedArg == none
  | some n => t.extendedArg == some n && t.extShift == some (if verGe t.version 3 6 then 8 else 16)

def tableFailures (t : OpTable) : List (String × String) :=
  (match refFor t with
   | none => []
   | some r => ((refChecks t r).filter (!·.2)).map fun c => ("ref", s!"{t.name} {c.1}")) ++
  ((bijChecks t).filter (!·.2)).map (fun c => ("bij", s!"{t.name} {c.1}")) ++
  (catBad t).map (fun (c, op) => ("cat", s!"{t.name} {c} {op}")) ++
  (if disjointOk t then [] else [("disjoint", s!"{t.name}")]) ++
  (if extArgOk t then [] else [("extarg", s!"{t.name}")])

def failures : List (String × String) := Gen.allTables.flatMap tableFailures

end XV.Spec.OpTables

/-! ### versions without a reference interpreter: committed, reviewed snapshot -/
namespace XV.Spec.OpTables
open XV XV.Model

/-- snapshots are looked up by (version, variant): table names are `opcode_<XY>[pypy]`, one per
    (version, variant); `String` comparison is avoided because it is very slow in the kernel -/
def snapFor (t : OpTable) : Option SnapTable :=
  Gen.allSnaps.find? (fun s => Nat.beq s.version.1 t.version.1 && Nat.beq s.version.2 t.version.2 && (s.isPypy == t.isPypy))

def snapChecks (t : OpTable) (s : SnapTable) : List (String × Bool) :=
  [ ("opmap", pairsEq t.opmap s.opmap),
    ("HAVE_ARGUMENT", t.haveArgument == s.haveArgument),
    ("EXTENDED_ARG", t.extendedArg == s.extendedArg && t.extShift == s.extShift),
    ("hasjrel", natsEq t.jrelOps s.jrelOps), ("hasjabs", natsEq t.jabsOps s.jabsOps),
    ("hasconst", natsEq t.constOps s.constOps), ("hasname", natsEq t.nameOps s.nameOps),
    ("haslocal", natsEq t.localOps s.localOps), ("hasfree", natsEq t.freeOps s.freeOps),
    ("hascompare", natsEq t.compareOps s.compareOps) ]

/-- a table with no reference interpreter equals its reviewed snapshot; a table
    with neither a reference nor a snapshot is not accepted -/
def histOk (t : OpTable) : Bool :=
  match refFor t, snapFor t with
  | some _, _ => true
  | none, some s => (snapChecks t s).all (·.2)
  | none, none => false

def histFailures : List (String × String) :=
  Gen.allTables.flatMap fun t =>
    match refFor t, snapFor t with
    | some _, _ => []
    | none, some s => ((snapChecks t s).filter (!·.2)).map fun c => ("hist", s!"{t.name} {c.1}")
    | none, none => [("hist", s!"{t.name} no-reference-and-no-snapshot")]

/-- every version string key of `op_imports` is served by a table in `allTables`
    (so the table theorems cover every table a file can select) -/
def allFailures : List (String × String) := failures ++ histFailures

end XV.Spec.OpTables

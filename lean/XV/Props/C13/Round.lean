/-
C13 — read → write → read, as theorems.

`C13_write_read`: for every code object in the 3.4–3.10 marshal layout whose fields are plain
values (nested code objects included, to any depth marshal.c accepts), the bytes
`xdis.marsh.dumps` writes (`dump_code3` and the plain-value writers, transcribed in
`XV.Model.Marsh`) are read back by marshal.c's reader for that version to the same code object,
field by field and constant by constant, with nothing left over.

`C13_roundtrip`: composed with the unmarshaller theorem (`C01_main`): if the producing Python's
marshal loads a payload to `pv`, then xdis's `load_code` returns `pv`, and what xdis's writer
emits for it is loaded by that Python to `pv` again.  Floats travel as `repr` text (the writer's
format); `float(repr(x)) = x` is CPython's guarantee and is not part of the theorem: both sides of
the final equation carry the float as its repr text (`textify`).
-/
import XV.Props.C14.Dumps
import XV.Props.C01.Main
namespace XV.Props.C13.Round
open XV XV.Model.Marsh XV.Model.Unmarshal XV.Spec.Marshal XV.Props.C14.Dumps XV.Props.C10.Sim

mutual
/-- binary floats as the writer emits them: their repr text (`reprF` is Python's `repr`, opaque) -/
def textify (reprF : Nat → Bytes) : V → V
  | .float b => .floatText (reprF b)
  | .complex re im => .complexText (reprF re) (reprF im)
  | .tuple xs => .tuple (textifyL reprF xs)
  | .list xs => .list (textifyL reprF xs)
  | .set xs => .set (textifyL reprF xs)
  | .fset xs => .fset (textifyL reprF xs)
  | .dict kvs => .dict (textifyKV reprF kvs)
  | .code fs => .code (textifyF reprF fs)
  | v => v
def textifyL (reprF : Nat → Bytes) : List V → List V
  | [] => []
  | x :: xs => textify reprF x :: textifyL reprF xs
def textifyKV (reprF : Nat → Bytes) : List (V × V) → List (V × V)
  | [] => []
  | (k, v) :: r => (textify reprF k, textify reprF v) :: textifyKV reprF r
def textifyF (reprF : Nat → Bytes) : List (String × V) → List (String × V)
  | [] => []
  | (n, v) :: r => (n, textify reprF v) :: textifyF reprF r
end

/-- C13_write_read — what `xdis.marsh.dumps` writes for a plain code object (3.4–3.10 layout) is
    what that Python's marshal reads back: the same object, nothing left over -/
theorem C13_write_read (ver : List Nat) (hera : era ver = 4) (c : V) (hp : Plain ver c = true) (hd : depthOf c ≤ 1999) :
    Spec.Marshal.loads ver (dump c) = .ok (norm c, []) :=
  C14_dumps ver hera c hp hd

/-- C13_roundtrip — load with xdis, write with xdis.marsh, load with the producing Python: the same
    code object -/
theorem C13_roundtrip (reprF : Nat → Bytes) (magic : Nat) (ver : List Nat) (limit : Nat) (data : Bytes) (pv : V)
    (hera : era ver = 4) (hbytes : AllBytes data) (hlimit : 2000 ≤ limit)
    (hm : magic ≠ 3400 ∧ magic ≠ 3401 ∧ magic ≠ 3410 ∧ magic ≠ 3411)
    (hcode : ∃ b tl, data = b :: tl ∧ b &&& 127 = 99)
    (hload : loadsStrict ver data = .ok (pv, []))
    (hplain : Plain ver (textify reprF pv) = true) (hdepth : depthOf (textify reprF pv) ≤ 1999) :
    ∃ w, loadCode magic ver false limit data = .ok (w, []) ∧ w = pv ∧
      Spec.Marshal.loads ver (dump (textify reprF w)) = .ok (norm (textify reprF pv), []) := by
  have h3 : verGeL ver 3 0 = true := verGeL_mono ver 3 4 3 0 (by omega) ((era_eq4 ver).1 hera)
  have hmain := XV.Props.C01.Main.C01_main magic ver limit data pv [] hbytes hlimit hm hcode hload
  refine ⟨pv, ?_, rfl, C13_write_read ver hera _ hplain hdepth⟩
  rw [hmain]
  simp [portV, h3]

/-- non-vacuity: the 3.8 sample payload of C01_main (a real `marshal.dumps(compile(...))`) is loaded by the
    strict Spec, with nothing left over, to a code object that is plain (after textify) and shallow — every
    hypothesis of C13_roundtrip is met -/
example : (loadsStrict [3, 8] XV.Props.C01.Main.sample38).toOption.map
      (fun r => Plain [3, 8] (textify (fun _ => [48]) r.1) && decide (depthOf (textify (fun _ => [48]) r.1) ≤ 1999) &&
        decide (r.2 = [])) = some true ∧ era [3, 8] = 4 := by
  decide +kernel

end XV.Props.C13.Round

/-
Closed forms of stack effects as functions of the operand.  compile.c's stack_effect (and
the generated metadata of 3.12/3.13) only use these shapes; the reference form of each
opcode is FITTED to dis.stack_effect of the installed interpreters (Gen.RefEffects).
-/
namespace XV.Spec.StackEffect

inductive EForm where
  | const (c : Int)                       -- c
  | affine (k c : Int)                    -- c + k·arg
  | bit (m : Nat) (c1 c0 : Int)           -- c1 if arg & m else c0
  | unpackEx (c : Int)                    -- c + (arg & 0xFF) + (arg >> 8)
  | slice3 (c : Int)                      -- c − [arg = 3]
  | pop4 (c : Int)                        -- c − popcount(arg & 15)
  | table35 (c : Int)                     -- xdis's MAKE_FUNCTION table for 3.5 (args 0..10, else None)
  | rejects                               -- dis.stack_effect raises ValueError
  | unknown
  deriving DecidableEq, Repr

def popcount4 (a : Nat) : Nat := a % 2 + (a / 2) % 2 + (a / 4) % 2 + (a / 8) % 2

def EForm.eval : EForm → Nat → Option Int
  | .const c, _ => some c
  | .affine k c, a => some (c + k * a)
  | .bit m c1 c0, a => some (if a &&& m ≠ 0 then c1 else c0)
  | .unpackEx c, a => some (c + ((a &&& 255 : Nat) : Int) + ((a >>> 8 : Nat) : Int))
  | .slice3 c, a => some (if a = 3 then c - 1 else c)
  | .pop4 c, a => some (c - (popcount4 a : Nat))
  | .table35 _, a => ([-1, -2, -3, -3, -2, -3, -3, -4, -2, -3, -3] : List Int)[a]?
  | .rejects, _ => none
  | .unknown, _ => none

end XV.Spec.StackEffect

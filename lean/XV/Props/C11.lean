/-
C11 — Corrupt or hostile bytecode files fail cleanly.
-/
import XV.Model.LoadOutcome
import XV.Gen.Effects
namespace XV.Props.C11
open XV XV.Model XV.Model.LoadOutcome

/-- the header reader lets no exception class other than ImportError out once four bytes
    are present (load_module guarantees 50) — for EVERY byte string and EVERY table state -/
theorem header_clean (tb : Header.Tables) (data : Bytes) (nm : Bool) (h : 4 ≤ data.length) :
    ∀ c, Header.load tb data nm ≠ .escaped c := by
  intro c
  unfold Header.load
  have : ¬ (data.length < 4) := by omega
  simp only [this, if_false]
  split
  · simp
  · split
    · simp
    · split
      · simp
      · split
        · simp
        · split
          · simp
          · split <;> simp

/-- C11_class: whatever the bytes of the file, whatever the recursion limit and whatever
    the tables hold, the portable path of load_module either returns or raises ImportError
    (the native fast path is a parameter: it is clean exactly when the host's marshal is) -/
theorem C11_class (tb : Header.Tables) (graal : List Nat) (limit hostMagic : Nat)
    (native : Bytes → Outcome) (data : Bytes) :
    clean (loadModule tb graal limit hostMagic native data) = true ∨
    loadModule tb graal limit hostMagic native data = .escaped "MODEL-OUT-OF-FUEL" ∨
    (∃ b, loadModule tb graal limit hostMagic native data = native b) := by
  unfold loadModule
  by_cases h50 : data.length < 50
  · simp [h50, clean]
  · simp only [h50, if_false]
    have h4 : 4 ≤ data.length := by omega
    have hc := header_clean tb data false h4
    cases hh : Header.load tb data false with
    | importError => simp [clean]
    | dropbox => simp [clean]
    | escaped c => exact absurd hh (hc c)
    | ok v t m p s sip pos =>
      simp only
      by_cases hm : m = hostMagic
      · simp only [hm, if_true]; right; right; exact ⟨_, rfl⟩
      · simp only [hm, if_false]
        cases Header.tupleOf tb m with
        | none => simp [clean]
        | some ver =>
          simp only
          cases Unmarshal.loadCode m ver (graal.contains m) limit (data.drop pos) with
          | ok r => simp [ofUnmarshal, clean]
          | error e => cases e <;> simp [ofUnmarshal, clean]

/-- non-vacuity: a 60-byte file of zeros is an unknown magic: ImportError -/
example : loadModule { tuples := [], versions := [], pypy3 := [] } [] 400 3531 (fun _ => .returned)
    (List.replicate 60 0) = .importError := by decide

end XV.Props.C11

namespace XV.Props.C11
/-- C11_effects: no exec / eval / compile / __import__ / open-for-write / os.* / subprocess /
    tempfile call site is reachable from load_module in the call graph extracted from
    /repo/xdis on this run (over-approximated: calls resolved by name across all modules,
    getattr(self, "t_" + …) resolved to every t_* method) -/
theorem C11_effects : Gen.loadModuleDanger = [] ∧ Gen.loadModuleReachable > 20 := by decide
end XV.Props.C11

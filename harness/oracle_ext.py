# Extra oracle ops (decoder family and later ones).  Syntax valid on 2.7.
import sys, dis, re

PY = sys.version_info[:2]
BIG = 300


def register(op, g):
    unhex, tohex, mkcode = g["unhex"], g["tohex"], g["mkcode"]

    def bigtables():
        consts = tuple(range(1000, 1000 + BIG))
        names = tuple("n%d" % i for i in range(BIG))
        varnames = tuple("v%d" % i for i in range(BIG))
        return consts, names, varnames

    @op
    def unpack(a):
        code = unhex(a["code"])
        if PY >= (3, 6):
            out = []
            for t in dis._unpack_opargs(code):
                if len(t) == 4:          # 3.13: (offset, start_offset, op, arg)
                    out.append([t[0], t[2], t[3]])
                else:
                    out.append([t[0], t[1], t[2]])
            return out
        # 2.7: dis.disassemble's own loop (copied verbatim from Lib/dis.py of 2.7)
        import opcode
        out = []
        n = len(code)
        i = 0
        extended_arg = 0
        while i < n:
            c = code[i]
            o = ord(c)
            off = i
            i = i + 1
            if o >= opcode.HAVE_ARGUMENT:
                oparg = ord(code[i]) + ord(code[i + 1]) * 256 + extended_arg
                extended_arg = 0
                i = i + 2
                if o == opcode.EXTENDED_ARG:
                    extended_arg = oparg * 65536
                out.append([off, o, oparg])
            else:
                out.append([off, o, None])
        return out

    @op
    def findlabels(a):
        return list(dis.findlabels(unhex(a["code"])))

    @op
    def instrs(a):
        """dis.get_instructions on a code object with large tables (3.4+)"""
        consts, names, varnames = bigtables()
        kw = {}
        co = mkcode(unhex(a["code"]), a.get("first", 1), unhex(a.get("linetab", "")), unhex(a.get("exctab", "")) if PY >= (3, 11) else None,
                    consts=consts, names=names, varnames=varnames,
                    freevars=a.get("freevars"), cellvars=a.get("cellvars"))
        out = []
        for i in dis.get_instructions(co):
            av = i.argval
            if not isinstance(av, (int, str, type(None))):
                av = repr(av)
            out.append({"offset": i.offset, "opcode": i.opcode, "opname": i.opname, "arg": i.arg, "argval": av,
                        "jt": bool(i.is_jump_target), "line": getattr(i, "starts_line", None) if PY < (3, 13) else getattr(i, "line_number", None)})
        return out

    @op
    def dis27(a):
        """text of dis.disassemble (2.7) parsed column-wise"""
        import StringIO
        consts, names, varnames = bigtables()
        co = mkcode(unhex(a["code"]), a.get("first", 1), unhex(a.get("linetab", "")), consts=consts, names=names, varnames=varnames)
        old = sys.stdout
        sys.stdout = buf = StringIO.StringIO()
        try:
            dis.disassemble(co)
        finally:
            sys.stdout = old
        out = []
        for line in buf.getvalue().split("\n"):
            m = re.match(r"^\s*(\d+)?\s*(-->)?\s*(>>)?\s*(\d+) (\S+)\s*(\d+)?\s*(\(.*\))?\s*$", line)
            if m:
                out.append({"line": int(m.group(1)) if m.group(1) else None, "jt": bool(m.group(3)), "offset": int(m.group(4)),
                            "opname": m.group(5), "arg": int(m.group(6)) if m.group(6) else None, "argrepr": m.group(7)})
        return out

    @op
    def stack_effect(a):
        out = []
        for o, arg in a["pairs"]:
            try:
                out.append(dis.stack_effect(o, arg) if arg is not None else dis.stack_effect(o))
            except ValueError:
                out.append(None)
        return out


def _walk(co):
    yield co
    for c in co.co_consts:
        if hasattr(c, "co_code"):
            for x in _walk(c):
                yield x


def _canon(v):
    """canonical S-expression-ish tree of a constant (kinds explicit)"""
    import struct, binascii
    t = type(v).__name__
    if v is None:
        return ["none"]
    if v is True or v is False:
        return ["bool", bool(v)]
    if v is Ellipsis:
        return ["ellipsis"]
    if t in ("int", "long"):
        return [t if sys.version_info[0] == 2 else "int", str(v)]
    if t == "float":
        return ["float", binascii.hexlify(struct.pack(">d", v)).decode("ascii")]
    if t == "complex":
        return ["complex", binascii.hexlify(struct.pack(">d", v.real)).decode("ascii"), binascii.hexlify(struct.pack(">d", v.imag)).decode("ascii")]
    if t == "bytes" or (t == "str" and sys.version_info[0] == 2):
        return ["bytes" if sys.version_info[0] == 3 else "str2", binascii.hexlify(v).decode("ascii")]
    if t == "unicode" or (t == "str" and sys.version_info[0] == 3):
        return ["unicode" if sys.version_info[0] == 2 else "str", [ord(c) for c in v]]
    if t in ("tuple", "list"):
        return [t, [_canon(x) for x in v]]
    if t in ("set", "frozenset"):
        return [t, sorted((_canon(x) for x in v), key=repr)]
    if t == "dict":
        return ["dict", sorted(([_canon(k), _canon(x)] for k, x in v.items()), key=repr)]
    if hasattr(v, "co_code"):
        return ["code", getattr(v, "co_name", "?")]
    if v is StopIteration:
        return ["stopiteration"]
    return ["other", t]


def _code_fields(co):
    import binascii
    hx = lambda b: binascii.hexlify(b).decode("ascii")
    d = {}
    for f in ("co_argcount", "co_posonlyargcount", "co_kwonlyargcount", "co_nlocals", "co_stacksize", "co_flags", "co_firstlineno"):
        if hasattr(co, f):
            d[f] = getattr(co, f)
    d["co_code"] = hx(co.co_code)
    for f in ("co_names", "co_varnames", "co_freevars", "co_cellvars"):
        d[f] = [_canon(x) for x in getattr(co, f)]
    d["co_filename"] = _canon(co.co_filename)
    d["co_name"] = _canon(co.co_name)
    if hasattr(co, "co_qualname"):
        d["co_qualname"] = _canon(co.co_qualname)
    d["linetable"] = hx(co.co_linetable if hasattr(co, "co_linetable") else co.co_lnotab)
    if hasattr(co, "co_exceptiontable"):
        d["co_exceptiontable"] = hx(co.co_exceptiontable)
    d["co_consts"] = [_canon(x) for x in co.co_consts]
    return d


def _register2(op, g):
    unhex, tohex = g["unhex"], g["tohex"]
    import marshal, struct, time

    @op
    def compile_program(a):
        """compile source; return a .pyc image (this interpreter's header + marshal), and for
        every code object (pre-order) its fields and this interpreter's dis view"""
        try:
            co = compile(a["source"], a.get("filename", "prog.py"), "exec")
        except SyntaxError as e:
            return {"syntax_error": str(e)[:80]}
        if a["source"].startswith("#craft:extarg"):
            # a hand-assembled module body: LOAD_NAME behind one and two EXTENDED_ARG prefixes (operands 65794, 65541, 513), over a names table large enough to resolve them -- compilers emit this only for enormous modules
            if PY < (3, 8):
                return {"syntax_error": "crafted code needs code.replace()"}
            om = dis.opmap
            EA, LN, PT, LC, RV = om["EXTENDED_ARG"], om["LOAD_NAME"], om["POP_TOP"], om["LOAD_CONST"], om["RETURN_VALUE"]
            code = bytes([EA, 1, EA, 1, LN, 2, PT, 0, EA, 1, EA, 0, LN, 5, PT, 0, EA, 2, LN, 1, PT, 0, LN, 3, PT, 0, LC, 0, RV, 0])
            co = co.replace(co_code=code, co_names=tuple("n%d" % i for i in range(65800)), co_consts=(None,), co_stacksize=2)
        try:
            import importlib.util
            magic = importlib.util.MAGIC_NUMBER
        except Exception:
            import imp
            magic = imp.get_magic()
        body = marshal.dumps(co)
        if PY >= (3, 7):
            hdr = magic + struct.pack("<III", 0, a.get("mtime", 1700000000), len(a["source"]) & 0xFFFFFFFF)
        elif PY >= (3, 3):
            hdr = magic + struct.pack("<II", a.get("mtime", 1700000000), len(a["source"]) & 0xFFFFFFFF)
        else:
            hdr = magic + struct.pack("<I", a.get("mtime", 1700000000))
        codes = []
        for c in _walk(co):
            ent = {"fields": _code_fields(c)}
            if PY >= (3, 4):
                ins = []
                for i in dis.get_instructions(c):
                    av = i.argval
                    if hasattr(av, "co_code"):
                        av = ["code", av.co_name]
                    elif not isinstance(av, (int, str, type(None))):
                        av = _canon(av)
                    ins.append([i.offset, i.opcode, i.opname, i.arg, av, bool(i.is_jump_target),
                                getattr(i, "starts_line", None) if PY < (3, 13) else (i.line_number if i.starts_line else None)])
                ent["instrs"] = ins
                ent["labels"] = list(dis.findlabels(c.co_code))
                ent["linestarts"] = [[o, l] for o, l in dis.findlinestarts(c)]
            else:
                ent["labels"] = list(dis.findlabels(c.co_code))
                ent["linestarts"] = [[o, l] for o, l in dis.findlinestarts(c)]
                ent["unpack"] = OPS_["unpack"]({"code": tohex(c.co_code)})
                import StringIO
                old = sys.stdout
                sys.stdout = buf = StringIO.StringIO()
                try:
                    dis.disassemble(c)
                finally:
                    sys.stdout = old
                txt = []
                for line in buf.getvalue().split("\n"):
                    m = re.match(r"^(\s*\d+|\s{3})\s(-->|\s{3})\s(>>|\s{2})\s(\s*\d+)\s(\S+)\s*(\d+)?\s*(\(.*\))?\s*$", line)
                    if m:
                        txt.append([int(m.group(4)), m.group(5), int(m.group(6)) if m.group(6) else None, m.group(7), m.group(3) == ">>",
                                    int(m.group(1)) if m.group(1).strip() else None])
                ent["dis27"] = txt
            if PY >= (3, 11):
                ent["exc"] = [[e.start, e.end, e.target, e.depth, bool(e.lasti)] for e in dis._parse_exception_table(c)]
                ent["positions"] = [list(p) for p in c.co_positions()]
                ent["co_lines"] = [list(p) for p in c.co_lines()]
            elif PY >= (3, 10):
                ent["co_lines"] = [list(p) for p in c.co_lines()]
            codes.append(ent)
        # the same program as `marshal.dumps(compile(...))` writes it: the temporary has one reference, so from
        # marshal format 3 on the top-level code object carries no FLAG_REF and reference 0 is whatever comes first
        if PY >= (3, 8):
            nf = marshal.dumps(co.replace(co_name=co.co_name))       # a temporary copy (of the crafted body too)
        else:
            nf = marshal.dumps(compile(a["source"], a.get("filename", "prog.py"), "exec"))
        return {"pyc": tohex(hdr + body), "codes": codes, "magic": struct.unpack("<H", magic[:2])[0], "payload_unflagged": tohex(nf)}


OPS_ = {}
_old_register = register


def register(op, g):
    def op2(f):
        OPS_[f.__name__] = f
        return op(f)
    _old_register(op2, g)
    _register2(op2, g)


def _register3(op, g):
    import marshal, tempfile, os
    import mcanon
    unhex, tohex = g["unhex"], g["tohex"]

    @op
    def marshal_loads(a):
        """marshal.load of this interpreter on the byte string: canonical tree + bytes consumed"""
        data = unhex(a["hex"]) if a["hex"] != "-" else b""
        fd, path = tempfile.mkstemp()
        os.write(fd, data)
        os.close(fd)
        try:
            f = open(path, "rb")
            try:
                v = marshal.load(f)
                pos = f.tell()
            finally:
                f.close()
        finally:
            os.unlink(path)
        return {"tree": mcanon.tree(v, PY), "consumed": pos}

    @op
    def marshal_dumps(a):
        """marshal.dumps(eval(expr), version)"""
        v = eval(a["expr"])
        if a.get("version") is None:
            return tohex(marshal.dumps(v))
        return tohex(marshal.dumps(v, a["version"]))


_old_register2 = register


def register(op, g):  # noqa: F811
    _old_register2(op, g)
    _register3(op, g)


def _register4(op, g):
    unhex, tohex = g["unhex"], g["tohex"]

    @op
    def classify_pyc(a):
        """importlib's own reading of a pyc header (3.7+): flags, and the fields it would compare"""
        import importlib._bootstrap_external as be
        import struct
        data = unhex(a["hex"])
        flags = be._classify_pyc(data, "probe", {})
        out = {"flags": flags, "hash_based": bool(flags & 1)}
        if flags & 1:
            out["hash"] = struct.unpack("<Q", data[8:16])[0]
        else:
            out["mtime"] = struct.unpack("<I", data[8:12])[0]
            out["size"] = struct.unpack("<I", data[12:16])[0]
        return out

    @op
    def py_compile_modes(a):
        """py_compile of a source file in each invalidation mode: the pyc images"""
        import py_compile, tempfile, os
        d = tempfile.mkdtemp()
        src = os.path.join(d, "m.py")
        open(src, "w").write(a["source"])
        os.utime(src, (a.get("mtime", 1700000000), a.get("mtime", 1700000000)))
        out = {}
        modes = [None]
        if PY >= (3, 7):
            modes = [py_compile.PycInvalidationMode.TIMESTAMP, py_compile.PycInvalidationMode.CHECKED_HASH,
                     py_compile.PycInvalidationMode.UNCHECKED_HASH]
        for m in modes:
            cf = os.path.join(d, "m.pyc")
            if m is None:
                py_compile.compile(src, cfile=cf, doraise=True)
                out["TIMESTAMP"] = tohex(open(cf, "rb").read())
            else:
                py_compile.compile(src, cfile=cf, doraise=True, invalidation_mode=m)
                out[m.name] = tohex(open(cf, "rb").read())
        import shutil
        shutil.rmtree(d)
        return out


_old_register3 = register


def register(op, g):  # noqa: F811
    _old_register3(op, g)
    _register4(op, g)


def _register5(op, g):
    unhex, tohex = g["unhex"], g["tohex"]
    import marshal

    @op
    def load_pyc_native(a):
        """this interpreter's own reading of a .pyc image: header length by its own format, then
        marshal.loads; fields of every code object; optionally run it"""
        data = unhex(a["pyc"])
        hl = 16 if PY >= (3, 7) else 12 if PY >= (3, 3) else 8
        try:
            co = marshal.loads(data[hl:])
        except Exception as e:
            return {"err": type(e).__name__, "msg": str(e)[:100]}
        if not hasattr(co, "co_code"):
            return {"err": "not-code", "msg": type(co).__name__}
        out = {"codes": [{"fields": _code_fields(c)} for c in _walk(co)]}
        if a.get("run"):
            import io as _io
            buf = []
            glb = {"__name__": "__xv__", "print": lambda *x: buf.append(" ".join(str(i) for i in x))}
            # the print STATEMENT of Python 2 goes to sys.stdout, which carries this worker's protocol
            try:
                from StringIO import StringIO as _SIO
            except ImportError:
                from io import StringIO as _SIO
            saved_out, sys.stdout = sys.stdout, _SIO()
            try:
                try:
                    exec(co, glb)
                    out["ran"] = "ok"
                except BaseException as e:
                    out["ran"] = type(e).__name__
                buf += [ln for ln in sys.stdout.getvalue().split("\n") if ln]
            finally:
                sys.stdout = saved_out
            out["printed"] = buf[:20]
        return out


_old_register4 = register


def register(op, g):  # noqa: F811
    _old_register4(op, g)
    _register5(op, g)
